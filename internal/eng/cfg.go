package eng

import (
	"go/token"
	"go/types"

	"golang.org/x/tools/go/ssa"
)

// ---------------------------------------------------------------------------------------------
// A1: control-flow queries on SSA blocks (edge-granular cuts, must-pass-through, path counting)
// ---------------------------------------------------------------------------------------------

// Edge is a CFG edge.
type Edge struct{ From, To *ssa.BasicBlock }

// Point is a program point: before instruction Idx of block B.
type Point struct {
	B   *ssa.BasicBlock
	Idx int
}

// PointOf returns the point just before ins.
func PointOf(ins ssa.Instruction) Point {
	b := ins.Block()
	for i, x := range b.Instrs {
		if x == ins {
			return Point{b, i}
		}
	}
	return Point{b, 0}
}

// After returns the point just after ins.
func After(ins ssa.Instruction) Point {
	p := PointOf(ins)
	p.Idx++
	return p
}

// EdgeSet is a set of CFG edges.
type EdgeSet map[Edge]bool

// Union merges edge sets.
func Union(sets ...EdgeSet) EdgeSet {
	out := EdgeSet{}
	for _, s := range sets {
		for e := range s {
			out[e] = true
		}
	}
	return out
}

// ReachBlocks returns the blocks reachable from start without crossing removed edges.
func ReachBlocks(start *ssa.BasicBlock, removed EdgeSet) map[*ssa.BasicBlock]bool {
	seen := map[*ssa.BasicBlock]bool{}
	var walk func(b *ssa.BasicBlock)
	walk = func(b *ssa.BasicBlock) {
		if seen[b] {
			return
		}
		seen[b] = true
		for _, s := range b.Succs {
			if !removed[Edge{b, s}] {
				walk(s)
			}
		}
	}
	walk(start)
	return seen
}

// Cut reports whether every path from the entry of fn to block site crosses an edge of g.
func Cut(fn *ssa.Function, site *ssa.BasicBlock, g EdgeSet) bool {
	if len(fn.Blocks) == 0 {
		return false
	}
	return !ReachBlocks(fn.Blocks[0], g)[site]
}

// CutFrom is Cut with an arbitrary start block.
func CutFrom(start, site *ssa.BasicBlock, g EdgeSet) bool {
	return !ReachBlocks(start, g)[site]
}

// walkPoints explores forward from pt. visit is called for every instruction; returning false stops
// the exploration along that path (the instruction "absorbs" the path).
func walkPoints(pt Point, visit func(ins ssa.Instruction) bool) {
	seen := map[*ssa.BasicBlock]bool{}
	var walkBlock func(b *ssa.BasicBlock, from int)
	walkBlock = func(b *ssa.BasicBlock, from int) {
		for i := from; i < len(b.Instrs); i++ {
			if !visit(b.Instrs[i]) {
				return
			}
		}
		for _, s := range b.Succs {
			if !seen[s] {
				seen[s] = true
				walkBlock(s, 0)
			}
		}
	}
	walkBlock(pt.B, pt.Idx)
}

// MustPass reports whether every path from pt to a function exit (Return or Panic) executes an
// instruction matching q first. Returns the offending exit instruction otherwise.
// Infinite loops without exit satisfy the rule vacuously.
func MustPass(pt Point, q func(ssa.Instruction) bool) (bool, ssa.Instruction) {
	var bad ssa.Instruction
	walkPoints(pt, func(ins ssa.Instruction) bool {
		if bad != nil {
			return false
		}
		if q(ins) {
			return false
		}
		switch ins.(type) {
		case *ssa.Return:
			bad = ins
			return false
		case *ssa.Panic:
			// an explicit panic is an exit too, but only source-level ones (with position)
			if ins.Pos().IsValid() {
				bad = ins
			}
			return false
		}
		return true
	})
	return bad == nil, bad
}

// MustPassBefore reports whether every path from pt that reaches an instruction matching stop
// executes an instruction matching q first. Returns the offending stop instruction otherwise.
func MustPassBefore(pt Point, q, stop func(ssa.Instruction) bool) (bool, ssa.Instruction) {
	var bad ssa.Instruction
	walkPoints(pt, func(ins ssa.Instruction) bool {
		if bad != nil {
			return false
		}
		if q(ins) {
			return false
		}
		if stop(ins) {
			bad = ins
			return false
		}
		return true
	})
	return bad == nil, bad
}

// ReachableInstrs returns instructions matching q reachable from pt; paths stop at instructions matching stop
// (stop may be nil).
func ReachableInstrs(pt Point, q func(ssa.Instruction) bool, stop func(ssa.Instruction) bool) []ssa.Instruction {
	var out []ssa.Instruction
	walkPoints(pt, func(ins ssa.Instruction) bool {
		if stop != nil && stop(ins) {
			return false
		}
		if q(ins) {
			out = append(out, ins)
		}
		return true
	})
	return out
}

// CountOnPaths returns the minimum and maximum number of executions of instructions matching q over all
// paths from pt to an instruction matching end (or a function exit when end is nil). Back edges are not
// followed (each loop body is traversed at most once per path), so the count is per acyclic path.
// paths is the number of acyclic paths explored (capped).
func CountOnPaths(pt Point, q func(ssa.Instruction) bool, end func(ssa.Instruction) bool) (min, max, paths int) {
	min, max = 1<<30, -1
	onstack := map[*ssa.BasicBlock]bool{}
	const cap = 200000
	var walk func(b *ssa.BasicBlock, from, n int)
	walk = func(b *ssa.BasicBlock, from, n int) {
		if paths > cap {
			return
		}
		for i := from; i < len(b.Instrs); i++ {
			ins := b.Instrs[i]
			if q(ins) {
				n++
			}
			isEnd := false
			if end != nil && end(ins) {
				isEnd = true
			}
			switch ins.(type) {
			case *ssa.Return:
				isEnd = true
			case *ssa.Panic:
				if end == nil && !ins.Pos().IsValid() {
					return // synthetic panic (select lowering): not a real exit
				}
				isEnd = true
			}
			if isEnd {
				paths++
				if n < min {
					min = n
				}
				if n > max {
					max = n
				}
				return
			}
		}
		for _, s := range b.Succs {
			if onstack[s] {
				continue
			}
			onstack[s] = true
			walk(s, 0, n)
			onstack[s] = false
		}
	}
	onstack[pt.B] = true
	walk(pt.B, pt.Idx, 0)
	if max < 0 {
		min = 0
		max = 0
	}
	return
}

// ---------------------------------------------------------------------------------------------
// Cells: variables captured by closures or reassigned are heap/stack cells (Alloc); a cell with
// exactly one Store in its whole function family is single-assignment.
// ---------------------------------------------------------------------------------------------

// CellRoot maps a pointer value (Alloc, or FreeVar of a closure) to the Alloc it denotes, or nil.
func CellRoot(v ssa.Value) *ssa.Alloc {
	for i := 0; i < 8; i++ {
		switch x := v.(type) {
		case *ssa.Alloc:
			return x
		case *ssa.FreeVar:
			fn := x.Parent()
			idx := -1
			for k, fv := range fn.FreeVars {
				if fv == x {
					idx = k
				}
			}
			par := fn.Parent()
			if idx < 0 || par == nil {
				return nil
			}
			var mc *ssa.MakeClosure
			for _, b := range par.Blocks {
				for _, ins := range b.Instrs {
					if m, ok := ins.(*ssa.MakeClosure); ok && m.Fn == fn {
						mc = m
					}
				}
			}
			if mc == nil || idx >= len(mc.Bindings) {
				return nil
			}
			v = mc.Bindings[idx]
		default:
			return nil
		}
	}
	return nil
}

// FreeVarBinding returns the value bound to a closure's free variable at its (unique) MakeClosure.
func FreeVarBinding(x *ssa.FreeVar) ssa.Value {
	fn := x.Parent()
	par := fn.Parent()
	if par == nil {
		return nil
	}
	for k, fv := range fn.FreeVars {
		if fv != x {
			continue
		}
		for _, b := range par.Blocks {
			for _, ins := range b.Instrs {
				if m, ok := ins.(*ssa.MakeClosure); ok && m.Fn == fn && k < len(m.Bindings) {
					return m.Bindings[k]
				}
			}
		}
	}
	return nil
}

// CellStores returns every Store to the cell a in its function family (the function that declares it
// and all closures that capture it, transitively).
func (p *Prog) CellStores(a *ssa.Alloc) []*ssa.Store {
	if s, ok := p.cellStores[a]; ok {
		return s
	}
	var out []*ssa.Store
	for _, f := range Family(a.Parent()) {
		for _, b := range f.Blocks {
			for _, ins := range b.Instrs {
				if st, ok := ins.(*ssa.Store); ok && CellRoot(st.Addr) == a {
					out = append(out, st)
				}
			}
		}
	}
	p.cellStores[a] = out
	return out
}

// Resolve looks through loads of single-assignment cells and trivial conversions.
func (p *Prog) Resolve(v ssa.Value) ssa.Value {
	for i := 0; i < 16; i++ {
		switch u := v.(type) {
		case *ssa.UnOp:
			if u.Op != token.MUL {
				return v
			}
			cell := CellRoot(u.X)
			if cell == nil {
				return v
			}
			st := p.CellStores(cell)
			if len(st) != 1 {
				return v
			}
			v = st[0].Val
		case *ssa.ChangeType:
			v = u.X
		case *ssa.FreeVar:
			// free variable that is a value (not a cell): bound at MakeClosure
			if _, isPtrCell := u.Type().(*types.Pointer); isPtrCell && CellRoot(u) != nil {
				return v
			}
			b := FreeVarBinding(u)
			if b == nil {
				return v
			}
			v = b
		default:
			return v
		}
	}
	return v
}

// ---------------------------------------------------------------------------------------------
// Guards: success / failure edges of nil and boolean tests
// ---------------------------------------------------------------------------------------------

func isNilConst(x ssa.Value) bool {
	c, ok := x.(*ssa.Const)
	return ok && c.IsNil()
}

// NilCompare decodes `x != nil` / `x == nil`; trueIsNonNil tells which branch means non-nil.
func NilCompare(v ssa.Value) (x ssa.Value, trueIsNonNil bool, ok bool) {
	b, isBin := v.(*ssa.BinOp)
	if !isBin || (b.Op != token.NEQ && b.Op != token.EQL) {
		return nil, false, false
	}
	switch {
	case isNilConst(b.Y):
		x = b.X
	case isNilConst(b.X):
		x = b.Y
	default:
		return nil, false, false
	}
	return x, b.Op == token.NEQ, true
}

// CondEdges describes, for a boolean SSA value used (possibly negated, possibly through && / || lowering)
// as branch condition, the CFG edges on which it is known true and known false.
// Only direct `if v` / `if !v` uses are decoded; short-circuit lowering produces nested ifs on the
// operands, which this handles naturally since each operand is its own If.
func BoolEdges(fn *ssa.Function, isV func(ssa.Value) bool) (trueEdges, falseEdges EdgeSet) {
	trueEdges, falseEdges = EdgeSet{}, EdgeSet{}
	for _, b := range fn.Blocks {
		if len(b.Instrs) == 0 {
			continue
		}
		iff, ok := b.Instrs[len(b.Instrs)-1].(*ssa.If)
		if !ok {
			continue
		}
		c := iff.Cond
		neg := false
		for {
			u, ok := c.(*ssa.UnOp)
			if ok && u.Op == token.NOT {
				neg = !neg
				c = u.X
				continue
			}
			break
		}
		if !isV(c) {
			continue
		}
		t, f := Edge{b, b.Succs[0]}, Edge{b, b.Succs[1]}
		if neg {
			t, f = f, t
		}
		trueEdges[t] = true
		falseEdges[f] = true
	}
	return
}

// NilEdges returns, over all `if x ==/!= nil` tests in fn whose operand satisfies isX (after Resolve),
// the edges on which x is nil and the edges on which it is non-nil.
func (p *Prog) NilEdges(fn *ssa.Function, isX func(ssa.Value) bool) (nilEdges, nonNilEdges EdgeSet) {
	nilEdges, nonNilEdges = EdgeSet{}, EdgeSet{}
	for _, b := range fn.Blocks {
		if len(b.Instrs) == 0 {
			continue
		}
		iff, ok := b.Instrs[len(b.Instrs)-1].(*ssa.If)
		if !ok {
			continue
		}
		x, trueNonNil, ok := NilCompare(iff.Cond)
		if !ok {
			continue
		}
		if !isX(x) && !isX(p.Resolve(x)) {
			continue
		}
		nn, n := Edge{b, b.Succs[0]}, Edge{b, b.Succs[1]}
		if !trueNonNil {
			nn, n = n, nn
		}
		nonNilEdges[nn] = true
		nilEdges[n] = true
	}
	return
}

// ResultOf reports whether v is result idx of call (directly for single-result calls, or via Extract).
// idx < 0 accepts any result index.
func ResultOf(v ssa.Value, call ssa.Value, idx int) bool {
	switch e := v.(type) {
	case *ssa.Extract:
		return e.Tuple == call && (idx < 0 || e.Index == idx)
	case *ssa.Call:
		return e == call && idx <= 0
	}
	return false
}

// AsResult decodes v as "result idx of call c".
func AsResult(v ssa.Value) (*ssa.Call, int, bool) {
	switch e := v.(type) {
	case *ssa.Extract:
		if c, ok := e.Tuple.(*ssa.Call); ok {
			return c, e.Index, true
		}
	case *ssa.Call:
		return e, 0, true
	}
	return nil, 0, false
}

// SuccessEdges: edges on which result errIdx of any call in `calls` is nil (the call succeeded),
// and failure edges (non-nil). The error value may be stored in a cell that has other stores
// (e.g. a shared `err` variable); in that case the test must read the cell in the same block as the
// store of this call's result, or be dominated by that store with no other store in between
// (approximated: same block, or the loaded cell's reaching store is unique along the dominator chain).
func (p *Prog) SuccessEdges(fn *ssa.Function, calls []ssa.CallInstruction, errIdx int) (succ, fail EdgeSet) {
	return p.SuccessEdgesSib(fn, calls, nil, errIdx)
}

// SuccessEdgesSib is SuccessEdges where the tested error may also be a phi over the error results of `calls` and of the
// sibling calls `sibs` (a loop written `for c, err := f(); …; c, err = f()`): the phi is the error of whichever of them ran
// last, so its nil edge is a success edge for the value phi built over the same calls. At least one edge must come from `calls`.
func (p *Prog) SuccessEdgesSib(fn *ssa.Function, calls, sibs []ssa.CallInstruction, errIdx int) (succ, fail EdgeSet) {
	isCall := map[ssa.Value]bool{}
	for _, c := range calls {
		if v, ok := c.(*ssa.Call); ok {
			isCall[v] = true
		}
	}
	isSib := map[ssa.Value]bool{}
	for _, c := range sibs {
		if v, ok := c.(*ssa.Call); ok {
			isSib[v] = true
		}
	}
	direct := func(x ssa.Value, set map[ssa.Value]bool) bool {
		c, i, ok := AsResult(x)
		return ok && set[c] && (errIdx < 0 || i == errIdx || (errIdx == 0 && c.Call.Signature().Results().Len() == 1))
	}
	match := func(x ssa.Value) bool {
		if direct(x, isCall) {
			return true
		}
		ph, isPhi := x.(*ssa.Phi)
		if !isPhi {
			return false
		}
		own := false
		for _, e := range ph.Edges {
			switch {
			case direct(e, isCall):
				own = true
			case direct(e, isSib):
			default:
				return false
			}
		}
		return own
	}
	succ, fail = EdgeSet{}, EdgeSet{}
	for _, f := range []*ssa.Function{fn} {
		for _, b := range f.Blocks {
			if len(b.Instrs) == 0 {
				continue
			}
			iff, ok := b.Instrs[len(b.Instrs)-1].(*ssa.If)
			if !ok {
				continue
			}
			x, trueNonNil, ok := NilCompare(iff.Cond)
			if !ok {
				continue
			}
			hit := match(x) || match(p.Resolve(x))
			if !hit {
				// multi-store cell: find the reaching store in this block or its dominators
				if rv := p.ReachingStore(x, iff); rv != nil && match(rv) {
					hit = true
				}
			}
			if !hit {
				continue
			}
			nn, n := Edge{b, b.Succs[0]}, Edge{b, b.Succs[1]}
			if !trueNonNil {
				nn, n = n, nn
			}
			fail[nn] = true
			succ[n] = true
		}
	}
	return
}

// ReachingStore: for a load `*cell` (v) evaluated at instruction `at`, returns the value of the unique
// store to the cell that reaches it along the dominator chain without an intervening other store or
// call that could write the cell (cells captured by closures may be written by calls to those closures;
// we only look for stores textually, within the load's own function, scanning backwards in the
// same block and then up the immediate-dominator chain as long as each step has a single predecessor).
// Returns nil when undetermined.
func (p *Prog) ReachingStore(v ssa.Value, at ssa.Instruction) ssa.Value {
	u, ok := v.(*ssa.UnOp)
	if !ok || u.Op != token.MUL {
		return nil
	}
	cell := CellRoot(u.X)
	if cell == nil {
		// a field of a struct handed around by pointer: the one value last stored through that pointer, when decidable
		if _, isFA := u.X.(*ssa.FieldAddr); isFA {
			if vals, complete := p.FieldReaching(u); complete && len(vals) == 1 {
				return vals[0]
			}
		}
		return nil
	}
	if rs, complete := p.ReachingStores(u); complete && len(rs) > 0 {
		// one store, or several stores of the very same value
		same := true
		for _, s := range rs {
			if s.Val != rs[0].Val {
				same = false
			}
		}
		if same {
			return rs[0].Val
		}
		return nil
	}
	b := u.Block()
	idx := len(b.Instrs)
	for i, ins := range b.Instrs {
		if ins == ssa.Instruction(u) {
			idx = i
		}
	}
	for steps := 0; steps < 64; steps++ {
		for i := idx - 1; i >= 0; i-- {
			if st, ok := b.Instrs[i].(*ssa.Store); ok && CellRoot(st.Addr) == cell {
				return st.Val
			}
		}
		if len(b.Preds) != 1 {
			return nil
		}
		b = b.Preds[0]
		idx = len(b.Instrs)
	}
	return nil
}

// Dominates reports whether instruction a dominates instruction b (same function).
func Dominates(a, b ssa.Instruction) bool {
	if a.Block() == b.Block() {
		for _, x := range a.Block().Instrs {
			if x == a {
				return true
			}
			if x == b {
				return false
			}
		}
		return false
	}
	return a.Block().Dominates(b.Block())
}

// Returns lists the Return instructions of fn.
func Returns(fn *ssa.Function) []*ssa.Return {
	var out []*ssa.Return
	for _, b := range fn.Blocks {
		for _, ins := range b.Instrs {
			if r, ok := ins.(*ssa.Return); ok {
				out = append(out, r)
			}
		}
	}
	return out
}

// Loop is a natural loop.
type Loop struct {
	Header *ssa.BasicBlock
	Body   map[*ssa.BasicBlock]bool
	Exits  []Edge // edges leaving the body
	Backs  []Edge
}

// Loops finds the natural loops of fn (merged per header).
func Loops(fn *ssa.Function) []*Loop {
	byHeader := map[*ssa.BasicBlock]*Loop{}
	var order []*ssa.BasicBlock
	for _, b := range fn.Blocks {
		for _, s := range b.Succs {
			if s.Dominates(b) { // back edge b -> s
				l := byHeader[s]
				if l == nil {
					l = &Loop{Header: s, Body: map[*ssa.BasicBlock]bool{s: true}}
					byHeader[s] = l
					order = append(order, s)
				}
				l.Backs = append(l.Backs, Edge{b, s})
				// body: nodes that can reach b without passing s
				var stack []*ssa.BasicBlock
				if !l.Body[b] {
					l.Body[b] = true
					stack = append(stack, b)
				}
				for len(stack) > 0 {
					n := stack[len(stack)-1]
					stack = stack[:len(stack)-1]
					for _, pr := range n.Preds {
						if !l.Body[pr] {
							l.Body[pr] = true
							stack = append(stack, pr)
						}
					}
				}
			}
		}
	}
	var out []*Loop
	for _, h := range order {
		l := byHeader[h]
		for b := range l.Body {
			for _, s := range b.Succs {
				if !l.Body[s] {
					l.Exits = append(l.Exits, Edge{b, s})
				}
			}
		}
		out = append(out, l)
	}
	return out
}

// InnermostLoop returns the smallest loop containing b, or nil.
func InnermostLoop(loops []*Loop, b *ssa.BasicBlock) *Loop {
	var best *Loop
	for _, l := range loops {
		if l.Body[b] && (best == nil || len(l.Body) < len(best.Body)) {
			best = l
		}
	}
	return best
}
