package eng

import (
	"go/types"
	"go/token"

	"golang.org/x/tools/go/ssa"
)

// ---------------------------------------------------------------------------------------------
// Precision helpers for provenance: construct-only fields, reaching stores of cells, and branch-correlated
// pruning of phi edges. They exist so that value rules survive the refactorings a maintainer makes
// (parameter structs, merged branches guarded by one flag) without becoming path-insensitive guesses.
// ---------------------------------------------------------------------------------------------

type fieldKey struct{ t, f string }

// ConstructOnly returns the values stored into field f of the repo struct type t when every store happens while the object
// is being constructed (composite literal / constructor working on a fresh allocation). ok is false if the field is ever
// stored on an existing object, its address escapes, or it is never stored.
func (p *Prog) ConstructOnly(t, f string) ([]ssa.Value, bool) {
	if p.fieldInit == nil {
		p.fieldInit = map[fieldKey][]ssa.Value{}
		p.fieldInitOK = map[fieldKey]bool{}
		for _, fn := range p.Fns {
			for _, b := range fn.Blocks {
				for _, ins := range b.Instrs {
					fa, ok := ins.(*ssa.FieldAddr)
					if !ok {
						continue
					}
					tt, ff, _, ok := FieldOf(fa)
					if !ok {
						continue
					}
					k := fieldKey{tt, ff}
					if _, seen := p.fieldInitOK[k]; !seen {
						p.fieldInitOK[k] = true
					}
					refs := fa.Referrers()
					if refs == nil {
						continue
					}
					for _, r := range *refs {
						switch u := r.(type) {
						case *ssa.Store:
							if u.Addr == ssa.Value(fa) && isFresh(fa.X) {
								p.fieldInit[k] = append(p.fieldInit[k], u.Val)
							} else {
								p.fieldInitOK[k] = false
							}
						case *ssa.UnOp, *ssa.FieldAddr, *ssa.IndexAddr, *ssa.DebugRef:
						default:
							// address passed to a call or stored: the field can be written elsewhere
							p.fieldInitOK[k] = false
						}
					}
				}
			}
		}
	}
	k := fieldKey{t, f}
	if !p.fieldInitOK[k] || len(p.fieldInit[k]) == 0 {
		return nil, false
	}
	return p.fieldInit[k], true
}

// ReachingStores returns the stores to the cell of load that can be the last one executed before load, following the CFG of
// the loading function backwards. complete is false when the value can also come from outside that function (the load's
// function is entered with the cell already live: a closure over the cell, or stores made by callees): callers then fall
// back to every store of the cell.
func (p *Prog) ReachingStores(load *ssa.UnOp) (out []*ssa.Store, complete bool) {
	if load.Op != token.MUL {
		return nil, false
	}
	cell := CellRoot(load.X)
	if cell == nil {
		return nil, false
	}
	fn := load.Parent()
	all := p.CellStores(cell)
	// functions other than fn that store to the cell
	foreign := map[*ssa.Function]bool{}
	for _, s := range all {
		if s.Parent() != fn {
			foreign[s.Parent()] = true
		}
	}
	// a call in fn may run such a function (a closure of the family): its stores may reach, without killing
	mayRun := func(ins ssa.Instruction) []*ssa.Store {
		ci, ok := ins.(ssa.CallInstruction)
		if !ok || len(foreign) == 0 {
			return nil
		}
		var res []*ssa.Store
		for _, g := range p.Callees(ci) {
			for h := range p.reachFamily(g, foreign) {
				for _, s := range all {
					if s.Parent() == h {
						res = append(res, s)
					}
				}
			}
		}
		return res
	}
	complete = true
	seenB := map[*ssa.BasicBlock]bool{}
	seenS := map[*ssa.Store]bool{}
	add := func(s *ssa.Store) {
		if !seenS[s] {
			seenS[s] = true
			out = append(out, s)
		}
	}
	var walk func(b *ssa.BasicBlock, from int)
	walk = func(b *ssa.BasicBlock, from int) {
		for i := from; i >= 0; i-- {
			ins := b.Instrs[i]
			if st, ok := ins.(*ssa.Store); ok && CellRoot(st.Addr) == cell {
				add(st)
				return
			}
			for _, s := range mayRun(ins) {
				add(s)
			}
		}
		if len(b.Preds) == 0 {
			// function entry: the cell's own function starts with the zero value; a closure starts with whatever the
			// enclosing function stored
			if cell.Parent() != fn {
				complete = false
			}
			return
		}
		for _, pb := range b.Preds {
			if seenB[pb] {
				continue
			}
			seenB[pb] = true
			walk(pb, len(pb.Instrs)-1)
		}
	}
	b := load.Block()
	idx := 0
	for i, ins := range b.Instrs {
		if ins == ssa.Instruction(load) {
			idx = i
		}
	}
	walk(b, idx-1)
	return out, complete
}

// reachFamily: the functions among targets reachable from g through static calls / closures created in g (bounded).
func (p *Prog) reachFamily(g *ssa.Function, targets map[*ssa.Function]bool) map[*ssa.Function]bool {
	out := map[*ssa.Function]bool{}
	seen := map[*ssa.Function]bool{}
	var walk func(f *ssa.Function, d int)
	walk = func(f *ssa.Function, d int) {
		if f == nil || seen[f] || d > 4 || !p.InRepo(f) {
			return
		}
		seen[f] = true
		if targets[f] {
			out[f] = true
		}
		for _, c := range Calls(f) {
			for _, h := range p.Callees(c) {
				walk(h, d+1)
			}
		}
	}
	walk(g, 0)
	return out
}

// BranchFact: block b is only reachable with Cond evaluating to Val (it is dominated by that edge of an If on Cond).
type BranchFact struct {
	Cond ssa.Value
	Val  bool
}

// BranchFacts lists the facts of b: for every dominator d of b (b included) that has a single predecessor ending in an If,
// the outcome of that If. Negations are stripped (the polarity flips).
func BranchFacts(b *ssa.BasicBlock) []BranchFact {
	var out []BranchFact
	for d := b; d != nil; d = d.Idom() {
		if len(d.Preds) != 1 {
			continue
		}
		pb := d.Preds[0]
		iff, ok := pb.Instrs[len(pb.Instrs)-1].(*ssa.If)
		if !ok || pb.Succs[0] == pb.Succs[1] {
			continue
		}
		val := pb.Succs[0] == d
		cond := iff.Cond
		for {
			u, ok := cond.(*ssa.UnOp)
			if !ok || u.Op != token.NOT {
				break
			}
			cond = u.X
			val = !val
		}
		out = append(out, BranchFact{cond, val})
	}
	return out
}

// sameCond: two branch conditions denote the same value within one activation: the same SSA value, or the same comparison
// of loads of one local cell against the same constant with identical (complete) reaching stores.
func (p *Prog) sameCond(a, b ssa.Value) bool {
	if a == b {
		return true
	}
	x, ok1 := a.(*ssa.BinOp)
	y, ok2 := b.(*ssa.BinOp)
	if !ok1 || !ok2 || x.Op != y.Op {
		return false
	}
	return p.sameOperand(x.X, y.X) && p.sameOperand(x.Y, y.Y)
}

func (p *Prog) sameOperand(a, b ssa.Value) bool {
	if a == b {
		return true
	}
	if ca, ok := a.(*ssa.Const); ok {
		cb, ok := b.(*ssa.Const)
		return ok && ca.String() == cb.String()
	}
	la, ok1 := a.(*ssa.UnOp)
	lb, ok2 := b.(*ssa.UnOp)
	if !ok1 || !ok2 || la.Op != token.MUL || lb.Op != token.MUL {
		return false
	}
	ca, cb := CellRoot(la.X), CellRoot(lb.X)
	if ca == nil || ca != cb {
		return false
	}
	sa, oka := p.ReachingStores(la)
	sb, okb := p.ReachingStores(lb)
	if !oka || !okb || len(sa) != len(sb) || len(sa) == 0 {
		return false
	}
	m := map[*ssa.Store]bool{}
	for _, s := range sa {
		m[s] = true
	}
	for _, s := range sb {
		if !m[s] {
			return false
		}
	}
	return true
}

// Contradict reports whether the facts of two blocks of one function exclude each other (some condition must be true for one
// and false for the other), considering only conditions computed in a block that dominates both.
func (p *Prog) Contradict(a, b *ssa.BasicBlock) bool {
	fa, fb := BranchFacts(a), BranchFacts(b)
	for _, x := range fa {
		for _, y := range fb {
			if x.Val == y.Val || !p.sameCond(x.Cond, y.Cond) {
				continue
			}
			ok := true
			for _, cv := range []ssa.Value{x.Cond, y.Cond} {
				ci, isI := cv.(ssa.Instruction)
				if !isI {
					continue
				}
				if !ci.Block().Dominates(a) || !ci.Block().Dominates(b) {
					if x.Cond == y.Cond {
						ok = false
					}
				}
			}
			if ok {
				return true
			}
		}
	}
	return false
}

// SameValue: a and b denote the same value within one activation of their function: identical SSA values, loads of one local
// cell with identical reaching stores, or loads of the same field of the same base when that field is not stored to in the
// function (two reads of x.f with nothing in between).
func (p *Prog) SameValue(a, b ssa.Value) bool {
	for i := 0; i < 8; i++ {
		if ca, ok := a.(*ssa.ChangeType); ok {
			a = ca.X
			continue
		}
		if cb, ok := b.(*ssa.ChangeType); ok {
			b = cb.X
			continue
		}
		break
	}
	if a == b {
		return true
	}
	if p.sameOperand(a, b) {
		return true
	}
	la, ok1 := a.(*ssa.UnOp)
	lb, ok2 := b.(*ssa.UnOp)
	if ok1 && ok2 && la.Op == token.MUL && lb.Op == token.MUL && la.X == lb.X {
		// two loads of one local composite (k := T{…}; m[k] … m[k] = v): equal when the local is written only by the
		// field stores of its literal, all of them in the allocating block before any load, and never escapes
		if al, isA := la.X.(*ssa.Alloc); isA && writeOnceLocal(al) {
			return true
		}
	}
	if ok1 && ok2 && la.Op == token.MUL && lb.Op == token.MUL {
		fa, ok1 := la.X.(*ssa.FieldAddr)
		fb, ok2 := lb.X.(*ssa.FieldAddr)
		if ok1 && ok2 && fa.Field == fb.Field && fa.Parent() == fb.Parent() && p.sameBase(fa.X, fb.X) {
			t, f, _, ok := FieldOf(fa)
			if !ok {
				return false
			}
			if _, co := p.ConstructOnly(t, f); co {
				return true
			}
			for _, st := range p.FieldStores(t, f) {
				if st.Fn == fa.Parent() {
					return false
				}
			}
			return true
		}
	}
	return false
}

// writeOnceLocal: al is a local whose only referrers are loads and field addresses that are only stored to, every such
// store sitting in al's own block before the first load of al in that block.
func writeOnceLocal(al *ssa.Alloc) bool {
	if al.Referrers() == nil {
		return false
	}
	idx := func(b *ssa.BasicBlock, x ssa.Instruction) int {
		for i, ins := range b.Instrs {
			if ins == x {
				return i
			}
		}
		return -1
	}
	lastStore, firstLoad := -1, 1<<30
	for _, r := range *al.Referrers() {
		switch r := r.(type) {
		case *ssa.UnOp:
			if r.Op != token.MUL {
				return false
			}
			if r.Block() == al.Block() {
				if i := idx(r.Block(), r); i < firstLoad {
					firstLoad = i
				}
			}
		case *ssa.FieldAddr:
			if r.Referrers() == nil {
				return false
			}
			for _, rr := range *r.Referrers() {
				st, isS := rr.(*ssa.Store)
				if !isS || st.Addr != ssa.Value(r) || st.Block() != al.Block() {
					return false
				}
				if i := idx(st.Block(), st); i > lastStore {
					lastStore = i
				}
			}
		case *ssa.DebugRef:
		default:
			return false
		}
	}
	return lastStore < firstLoad
}

// sameBase: two struct addresses denote the same object — equal values, or the same field of the same base (an embedded or
// nested struct addressed twice: &(&x.Inner).F computed at two places).
func (p *Prog) sameBase(a, b ssa.Value) bool {
	if p.SameValue(a, b) {
		return true
	}
	fa, ok1 := a.(*ssa.FieldAddr)
	fb, ok2 := b.(*ssa.FieldAddr)
	return ok1 && ok2 && fa.Field == fb.Field && types.Identical(fa.X.Type(), fb.X.Type()) && p.sameBase(fa.X, fb.X)
}
