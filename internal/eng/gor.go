package eng

import (
	"sort"

	"golang.org/x/tools/go/ssa"
)

// ---------------------------------------------------------------------------------------------
// A5: goroutine roots, recover frames, regions
// ---------------------------------------------------------------------------------------------

// GoSite is a `go` statement with its resolved targets.
type GoSite struct {
	Fn      *ssa.Function
	Ins     *ssa.Go
	Targets []*ssa.Function
}

// GoSites lists every `go` statement in repo functions.
func (p *Prog) GoSites() []GoSite {
	var out []GoSite
	for _, f := range p.Fns {
		for _, b := range f.Blocks {
			for _, ins := range b.Instrs {
				if g, ok := ins.(*ssa.Go); ok {
					out = append(out, GoSite{f, g, p.Callees(g)})
				}
			}
		}
	}
	return out
}

// RecoverDefers returns the Defer instructions of f whose deferred function literal calls recover() directly.
func RecoverDefers(f *ssa.Function) []*ssa.Defer {
	var out []*ssa.Defer
	for _, b := range f.Blocks {
		for _, ins := range b.Instrs {
			d, ok := ins.(*ssa.Defer)
			if !ok {
				continue
			}
			var lit *ssa.Function
			switch v := d.Call.Value.(type) {
			case *ssa.MakeClosure:
				lit, _ = v.Fn.(*ssa.Function)
			case *ssa.Function:
				lit = v
			}
			if lit == nil {
				continue
			}
			found := false
			for _, lb := range lit.Blocks {
				for _, li := range lb.Instrs {
					if c, ok := li.(*ssa.Call); ok {
						if bi, ok := c.Call.Value.(*ssa.Builtin); ok && bi.Name() == "recover" {
							found = true
						}
					}
				}
			}
			if found {
				out = append(out, d)
			}
		}
	}
	return out
}

// Protected reports whether instruction ins of f executes under a recover frame installed in f itself
// (a recover-defer of f dominates ins).
func Protected(ins ssa.Instruction) bool {
	for _, d := range RecoverDefers(ins.Parent()) {
		if Dominates(d, ins) {
			return true
		}
	}
	return false
}

// Region is the set of repo functions reachable from a root by synchronous calls, not counting calls
// made under a recover frame, with for each function one witness chain.
type Region struct {
	Root  *ssa.Function
	Funcs map[*ssa.Function][]string // function → call chain from the root
	// Unprotected instructions: for the root and each function in Funcs, all instructions except those
	// dominated by a recover-defer of their own function.
}

// UnprotectedRegion computes the functions whose panics would escape to the goroutine root `root`:
// starting at root, follow synchronous calls (and callbacks handed to external callees) made at
// instructions that are not protected by a recover frame of the enclosing function.
func (p *Prog) UnprotectedRegion(l *Locks, root *ssa.Function) *Region {
	r := &Region{Root: root, Funcs: map[*ssa.Function][]string{root: {Short(root.String())}}}
	work := []*ssa.Function{root}
	for len(work) > 0 {
		f := work[0]
		work = work[1:]
		rec := RecoverDefers(f)
		for _, c := range Calls(f) {
			if _, isGo := c.(*ssa.Go); isGo {
				continue
			}
			prot := false
			for _, d := range rec {
				if ssa.Instruction(d) != c.(ssa.Instruction) && Dominates(d, c) {
					prot = true
				}
			}
			if prot {
				continue
			}
			for _, callee := range l.SyncCallees(c) {
				if _, ok := r.Funcs[callee]; !ok {
					r.Funcs[callee] = append(append([]string{}, r.Funcs[f]...), Short(callee.String())+"@"+p.IPos(c))
					work = append(work, callee)
				}
			}
		}
	}
	return r
}

// Reach returns all repo functions reachable from the roots by synchronous calls (ignoring recover frames).
func (p *Prog) Reach(l *Locks, roots ...*ssa.Function) map[*ssa.Function]bool {
	seen := map[*ssa.Function]bool{}
	work := append([]*ssa.Function{}, roots...)
	for _, r := range roots {
		seen[r] = true
	}
	for len(work) > 0 {
		f := work[0]
		work = work[1:]
		for _, c := range Calls(f) {
			for _, callee := range l.SyncCallees(c) {
				if !seen[callee] {
					seen[callee] = true
					work = append(work, callee)
				}
			}
		}
	}
	return seen
}

// SortedFns returns the keys of a function set sorted by name.
func SortedFns(m map[*ssa.Function]bool) []*ssa.Function {
	var out []*ssa.Function
	for f := range m {
		out = append(out, f)
	}
	sort.Slice(out, func(i, j int) bool { return out[i].String() < out[j].String() })
	return out
}

// LoopCapture is a variable that a goroutine started inside a loop captures by reference although it lives outside the loop
// and is assigned inside it: the goroutine may observe a later iteration's value (and races with the assignment).
type LoopCapture struct {
	Go   *ssa.Go
	Cell *ssa.Alloc
	Loop *Loop
}

// GoLoopCaptures finds the LoopCaptures of f.
func (p *Prog) GoLoopCaptures(f *ssa.Function) []LoopCapture {
	var out []LoopCapture
	loops := Loops(f)
	if len(loops) == 0 {
		return nil
	}
	for _, b := range f.Blocks {
		for _, ins := range b.Instrs {
			g, ok := ins.(*ssa.Go)
			if !ok {
				continue
			}
			mc, ok := g.Call.Value.(*ssa.MakeClosure)
			if !ok {
				continue
			}
			for _, l := range loops {
				if !l.Body[b] {
					continue
				}
				for _, bd := range mc.Bindings {
					cell := CellRoot(bd)
					if cell == nil || cell.Parent() != f || l.Body[cell.Block()] {
						continue
					}
					for _, st := range p.CellStores(cell) {
						if st.Parent() == f && l.Body[st.Block()] {
							out = append(out, LoopCapture{g, cell, l})
							break
						}
					}
				}
			}
		}
	}
	return out
}
