// Package eng loads /repo's current working tree into type-checked SSA form and offers the
// shared static analyses (A1..A8 of DESIGN.md) the per-property rules are built from.
// Nothing here executes repository code.
package eng

import (
	"fmt"
	"go/ast"
	"go/token"
	"go/types"
	"os"
	"sort"
	"strings"

	"golang.org/x/tools/go/callgraph"
	"golang.org/x/tools/go/callgraph/cha"
	"golang.org/x/tools/go/callgraph/vta"
	"golang.org/x/tools/go/packages"
	"golang.org/x/tools/go/ssa"
	"golang.org/x/tools/go/ssa/ssautil"
)

// Mod is the module path of the code base under analysis.
const Mod = "github.com/Jigsaw-Code/outline-ss-server"

// SDK is the module path prefix of the Outline SDK (trusted base, read for tables only).
const SDK = "github.com/Jigsaw-Code/outline-sdk"

// Prog is the loaded program.
type Prog struct {
	Dir        string
	Fset       *token.FileSet
	Pkgs       []*packages.Package          // root (repo) packages
	AllPkgs    map[string]*packages.Package // every package in the import closure, by path
	SSA        *ssa.Program
	All        map[*ssa.Function]bool
	CG         *callgraph.Graph
	Graph      string          // "vta" or "cha"
	Fns        []*ssa.Function // repo functions with bodies (including closures), sorted by name
	byName     map[string]*ssa.Function
	Config     string // GOOS/GOARCH
	nonNilBusy map[*ssa.Function]bool

	calleeCache map[ssa.CallInstruction][]*ssa.Function
	cellStores  map[*ssa.Alloc][]*ssa.Store
	fieldInit   map[fieldKey][]ssa.Value
	fieldInitOK map[fieldKey]bool
}

// Options for Load.
type Options struct {
	Dir    string
	GOOS   string
	GOARCH string
	CHA    bool // use the CHA graph instead of VTA (thorough tier cross-check)
}

// Load type-checks ./... of the module in opt.Dir (non-test files) and builds SSA and the call graph.
// Any load or type error is returned: a tree that does not compile gets no verdict.
func Load(opt Options) (*Prog, error) {
	env := append(os.Environ(), "GOFLAGS=-mod=mod", "GOPROXY=off", "GOSUMDB=off", "GOTOOLCHAIN=local", "GOWORK=off", "CGO_ENABLED=0")
	config := "default"
	if opt.GOOS != "" {
		env = append(env, "GOOS="+opt.GOOS, "GOARCH="+opt.GOARCH)
		config = opt.GOOS + "/" + opt.GOARCH
	}
	cfg := &packages.Config{Mode: packages.LoadAllSyntax, Dir: opt.Dir, Tests: false, Env: env}
	pkgs, err := packages.Load(cfg, "./...")
	if err != nil {
		return nil, fmt.Errorf("load: %w", err)
	}
	if len(pkgs) == 0 {
		return nil, fmt.Errorf("load: no packages found in %s", opt.Dir)
	}
	var errs []string
	packages.Visit(pkgs, nil, func(p *packages.Package) {
		for _, e := range p.Errors {
			errs = append(errs, e.Error())
		}
	})
	if len(errs) > 0 {
		if len(errs) > 8 {
			errs = errs[:8]
		}
		return nil, fmt.Errorf("load: %d package errors:\n  %s", len(errs), strings.Join(errs, "\n  "))
	}
	p := &Prog{Dir: opt.Dir, Pkgs: pkgs, Fset: pkgs[0].Fset, AllPkgs: map[string]*packages.Package{}, Config: config,
		calleeCache: map[ssa.CallInstruction][]*ssa.Function{}, cellStores: map[*ssa.Alloc][]*ssa.Store{}}
	packages.Visit(pkgs, nil, func(q *packages.Package) { p.AllPkgs[q.PkgPath] = q })
	p.SSA, _ = ssautil.AllPackages(pkgs, ssa.InstantiateGenerics)
	p.SSA.Build()
	p.All = ssautil.AllFunctions(p.SSA)
	if opt.CHA {
		p.CG = cha.CallGraph(p.SSA)
		p.Graph = "cha"
	} else {
		p.CG = vta.CallGraph(p.All, cha.CallGraph(p.SSA))
		p.Graph = "vta"
	}
	p.byName = map[string]*ssa.Function{}
	for f := range p.All {
		if p.InRepo(f) && len(f.Blocks) > 0 && !isWrapper(f) {
			p.Fns = append(p.Fns, f)
			p.byName[Short(f.String())] = f
		}
	}
	sort.Slice(p.Fns, func(i, j int) bool { return p.Fns[i].String() < p.Fns[j].String() })
	if len(p.Fns) == 0 {
		return nil, fmt.Errorf("load: no repository functions with bodies")
	}
	return p, nil
}

// Short strips the module prefixes from a printed name.
func Short(s string) string {
	s = strings.ReplaceAll(s, Mod+"/", "")
	s = strings.ReplaceAll(s, SDK+"/transport/", "sdk/")
	s = strings.ReplaceAll(s, SDK+"/", "sdk/")
	s = strings.ReplaceAll(s, "github.com/prometheus/client_golang/prometheus", "prom")
	s = strings.ReplaceAll(s, "github.com/shadowsocks/go-shadowsocks2/", "ss2/")
	return s
}

// Pos prints a position relative to the repository root.
func (p *Prog) Pos(pos token.Pos) string {
	if !pos.IsValid() {
		return "-"
	}
	q := p.Fset.Position(pos)
	f := strings.TrimPrefix(q.Filename, p.Dir+"/")
	if i := strings.Index(f, "/pkg/mod/"); i >= 0 {
		f = f[i+len("/pkg/mod/"):]
	}
	return fmt.Sprintf("%s:%d", f, q.Line)
}

// IPos is the position of an instruction, falling back to its block's first positioned instruction.
func (p *Prog) IPos(i ssa.Instruction) string {
	if i == nil {
		return "-"
	}
	if i.Pos().IsValid() {
		return p.Pos(i.Pos())
	}
	if v, ok := i.(ssa.Value); ok {
		if r := v.Referrers(); r != nil {
			for _, u := range *r {
				if u.Pos().IsValid() {
					return p.Pos(u.Pos())
				}
			}
		}
	}
	if b := i.Block(); b != nil {
		for _, j := range b.Instrs {
			if j.Pos().IsValid() {
				return p.Pos(j.Pos())
			}
		}
		if f := i.Parent(); f != nil {
			return p.Pos(f.Pos())
		}
	}
	return "-"
}

// Root returns the outermost enclosing function of a closure.
func Root(f *ssa.Function) *ssa.Function {
	for f.Parent() != nil {
		f = f.Parent()
	}
	return f
}

// PkgPathOf returns the package path a function belongs to (through closures, instantiations and wrappers).
func PkgPathOf(f *ssa.Function) string {
	f = Root(f)
	if f.Pkg != nil {
		return f.Pkg.Pkg.Path()
	}
	if o := f.Origin(); o != nil && o.Pkg != nil {
		return o.Pkg.Pkg.Path()
	}
	if f.Object() != nil && f.Object().Pkg() != nil {
		return f.Object().Pkg().Path()
	}
	return ""
}

// InRepo reports whether f is a function of the analysed module (not a dependency).
func (p *Prog) InRepo(f *ssa.Function) bool {
	pp := PkgPathOf(f)
	return pp == Mod || strings.HasPrefix(pp, Mod+"/")
}

// IsTestSupport reports functions that live in non-_test files but exist only for tests
// (e.g. service/cipher_list_testing.go); they are part of the build, so they are analysed,
// but rules about production wiring may exempt them by this predicate.
func (p *Prog) IsTestSupport(f *ssa.Function) bool {
	q := p.Fset.Position(Root(f).Pos())
	return strings.HasSuffix(q.Filename, "_testing.go")
}

// Fn finds a repo function by its short printed name, e.g. "(*service.natmap).Get" or "service.timedCopy".
func (p *Prog) Fn(name string) *ssa.Function { return p.byName[name] }

// FnsIn returns the repo functions of one package (short path, e.g. "service").
func (p *Prog) FnsIn(pkg string) []*ssa.Function {
	var out []*ssa.Function
	for _, f := range p.Fns {
		if PkgPathOf(f) == Mod+"/"+pkg {
			out = append(out, f)
		}
	}
	return out
}

// Family returns f and all functions nested in it (closures), f first.
func Family(f *ssa.Function) []*ssa.Function {
	out := []*ssa.Function{f}
	for _, a := range f.AnonFuncs {
		out = append(out, Family(a)...)
	}
	return out
}

// Synthetic wrappers are walked through transparently.
func isWrapper(f *ssa.Function) bool {
	if f.Synthetic == "" {
		return false
	}
	s := f.Synthetic
	return strings.HasPrefix(s, "bound method wrapper") || strings.HasPrefix(s, "thunk") || strings.HasPrefix(s, "wrapper for") ||
		strings.HasPrefix(s, "instantiation wrapper")
}

// Callees resolves the possible callees of a call site through the call graph, looking through
// synthetic wrappers ($bound, $thunk, method wrappers) so that the result is source-level functions.
func (p *Prog) Callees(site ssa.CallInstruction) []*ssa.Function {
	if r, ok := p.calleeCache[site]; ok {
		return r
	}
	seen := map[*ssa.Function]bool{}
	var out []*ssa.Function
	var add func(f *ssa.Function, depth int)
	add = func(f *ssa.Function, depth int) {
		if seen[f] {
			return
		}
		seen[f] = true
		if isWrapper(f) && depth < 6 {
			n := p.CG.Nodes[f]
			if n != nil {
				for _, e := range n.Out {
					add(e.Callee.Func, depth+1)
				}
				return
			}
		}
		out = append(out, f)
	}
	if n := p.CG.Nodes[site.Parent()]; n != nil {
		for _, e := range n.Out {
			if e.Site == site {
				add(e.Callee.Func, 0)
			}
		}
	}
	if len(out) == 0 {
		if f := site.Common().StaticCallee(); f != nil {
			add(f, 0)
		}
	}
	sort.Slice(out, func(i, j int) bool { return out[i].String() < out[j].String() })
	p.calleeCache[site] = out
	return out
}

// CalleeName is a printable, module-shortened identity of what a call instruction calls:
// static callees by their full name, interface calls as "(Iface).Method", builtins as
// "builtin.name", other dynamic calls as "dyn:<type>".
func CalleeName(c *ssa.CallCommon) string {
	if c.IsInvoke() {
		return "(" + Short(c.Value.Type().String()) + ")." + c.Method.Name()
	}
	if f := c.StaticCallee(); f != nil {
		if o := f.Origin(); o != nil {
			return Short(o.String())
		}
		return Short(f.String())
	}
	if b, ok := c.Value.(*ssa.Builtin); ok {
		return "builtin." + b.Name()
	}
	return "dyn:" + Short(c.Value.Type().String())
}

// CalleeNameOf is the name CalleeName gives to static calls of f.
func CalleeNameOf(f *ssa.Function) string {
	if o := f.Origin(); o != nil {
		return Short(o.String())
	}
	return Short(f.String())
}

// Calls returns the call instructions (call, go, defer) in f, in block order.
func Calls(f *ssa.Function) []ssa.CallInstruction {
	var out []ssa.CallInstruction
	for _, b := range f.Blocks {
		for _, ins := range b.Instrs {
			if c, ok := ins.(ssa.CallInstruction); ok {
				out = append(out, c)
			}
		}
	}
	return out
}

// CallsMatching returns the call instructions in f whose CalleeName satisfies pred.
func CallsMatching(f *ssa.Function, pred func(name string, c ssa.CallInstruction) bool) []ssa.CallInstruction {
	var out []ssa.CallInstruction
	for _, c := range Calls(f) {
		if pred(CalleeName(c.Common()), c) {
			out = append(out, c)
		}
	}
	return out
}

// Named is the usual predicate: exact CalleeName match against any of names.
func Named(names ...string) func(string, ssa.CallInstruction) bool {
	return func(n string, _ ssa.CallInstruction) bool {
		for _, x := range names {
			if n == x {
				return true
			}
		}
		return false
	}
}

// MethodNamed matches an interface or concrete method call by method name only (receiver type checked by the rule).
func MethodNamed(names ...string) func(string, ssa.CallInstruction) bool {
	return func(_ string, c ssa.CallInstruction) bool {
		m := MethodName(c.Common())
		for _, x := range names {
			if m == x {
				return true
			}
		}
		return false
	}
}

// MethodName returns the method name of an invoke or static method call ("" for plain functions).
func MethodName(c *ssa.CallCommon) string {
	if c.IsInvoke() {
		return c.Method.Name()
	}
	if f := c.StaticCallee(); f != nil && f.Signature.Recv() != nil {
		return f.Name()
	}
	return ""
}

// Receiver returns the receiver value of a method call (invoke or static), or nil.
func Receiver(c *ssa.CallCommon) ssa.Value {
	if c.IsInvoke() {
		return c.Value
	}
	if f := c.StaticCallee(); f != nil && f.Signature.Recv() != nil && len(c.Args) > 0 {
		return c.Args[0]
	}
	return nil
}

// Arg returns the i-th non-receiver argument of a call.
func Arg(c *ssa.CallCommon, i int) ssa.Value {
	off := 0
	if !c.IsInvoke() {
		if f := c.StaticCallee(); f != nil && f.Signature.Recv() != nil {
			off = 1
		}
	}
	if i+off < len(c.Args) {
		return c.Args[i+off]
	}
	return nil
}

// NArgs is the number of non-receiver arguments.
func NArgs(c *ssa.CallCommon) int {
	off := 0
	if !c.IsInvoke() {
		if f := c.StaticCallee(); f != nil && f.Signature.Recv() != nil {
			off = 1
		}
	}
	return len(c.Args) - off
}

// NamedType returns the named type behind pointers, or nil.
func NamedType(t types.Type) *types.Named {
	for {
		switch u := t.(type) {
		case *types.Pointer:
			t = u.Elem()
		case *types.Named:
			return u
		case *types.Alias:
			t = types.Unalias(u)
		default:
			return nil
		}
	}
}

// TypeName prints the short name of the named type behind pointers ("service.natmap"), or the type string.
func TypeName(t types.Type) string {
	if n := NamedType(t); n != nil {
		if n.Obj().Pkg() != nil {
			return Short(n.Obj().Pkg().Path() + "." + n.Obj().Name())
		}
		return n.Obj().Name()
	}
	return Short(t.String())
}

// FieldOf decodes a FieldAddr or Field instruction into (struct type name, field name, field var).
func FieldOf(v ssa.Value) (string, string, *types.Var, bool) {
	switch a := v.(type) {
	case *ssa.FieldAddr:
		pt, ok := a.X.Type().Underlying().(*types.Pointer)
		if !ok {
			return "", "", nil, false
		}
		st, ok := pt.Elem().Underlying().(*types.Struct)
		if !ok {
			return "", "", nil, false
		}
		return TypeName(pt.Elem()), st.Field(a.Field).Name(), st.Field(a.Field), true
	case *ssa.Field:
		st, ok := a.X.Type().Underlying().(*types.Struct)
		if !ok {
			return "", "", nil, false
		}
		return TypeName(a.X.Type()), st.Field(a.Field).Name(), st.Field(a.Field), true
	}
	return "", "", nil, false
}

// FileOf returns the syntax file containing pos among the loaded packages.
func (p *Prog) FileOf(pos token.Pos) *ast.File {
	for _, pkg := range p.AllPkgs {
		for _, f := range pkg.Syntax {
			if f.FileStart <= pos && pos <= f.FileEnd {
				return f
			}
		}
	}
	return nil
}

// Stats for evidence.
func (p *Prog) Stats() map[string]int {
	edges := 0
	for _, n := range p.CG.Nodes {
		edges += len(n.Out)
	}
	return map[string]int{"repo_packages": len(p.Pkgs), "all_packages": len(p.AllPkgs), "functions_total": len(p.All), "repo_functions": len(p.Fns), "callgraph_edges": edges}
}
