// sscheck decides the structural clauses of the properties in /verif/properties.jsonl for the tree in
// /repo by static analysis (go/packages + go/ssa + VTA call graph). See /verif/DESIGN.md.
//
//	sscheck -property C13 -tier quick|thorough
//	sscheck -explain /verif/evidence/violations/C13-1.json
//
// Exit 0: property's decided clauses hold; 1: violation (prints VIOLATION property=<id> replay=<path>);
// 2: the tree does not load / type-check (no verdict).
package main

import (
	"encoding/json"
	"flag"
	"fmt"
	"os"
	"os/exec"
	"path/filepath"
	"runtime"
	"sort"
	"strconv"
	"strings"
	"sync"
	"time"

	"verif/internal/eng"
	"verif/internal/rules"
)

// Result is what one analysis process produces (one property, one build configuration, one tree).
type Result struct {
	Property   string            `json:"property"`
	Config     string            `json:"config"`
	Graph      string            `json:"graph"`
	Repo       string            `json:"repo"`
	Obs        []rules.Ob        `json:"obligations"`
	Floors     []rules.Floor     `json:"floors"`
	Exemptions []rules.Exemption `json:"exemptions"`
	Info       map[string]any    `json:"info,omitempty"`
	Stats      map[string]int    `json:"stats"`
	WallS      float64           `json:"wall_s"`
	LoadError  string            `json:"load_error,omitempty"`
	Panic      string            `json:"panic,omitempty"`
}

var verifDir = "/verif"

func analyse(prop, repo, goos, goarch string, cha bool, tier string) (res *Result) {
	t0 := time.Now()
	res = &Result{Property: prop, Repo: repo, Config: "default", Graph: "vta"}
	if goos != "" {
		res.Config = goos + "/" + goarch
	}
	if cha {
		res.Graph = "cha"
	}
	defer func() {
		if r := recover(); r != nil {
			buf := make([]byte, 8192)
			n := runtime.Stack(buf, false)
			res.Panic = fmt.Sprintf("%v\n%s", r, buf[:n])
		}
		res.WallS = time.Since(t0).Seconds()
	}()
	p, err := eng.Load(eng.Options{Dir: repo, GOOS: goos, GOARCH: goarch, CHA: cha})
	if err != nil {
		res.LoadError = err.Error()
		return
	}
	res.Stats = p.Stats()
	def := rules.Registry[prop]
	c := &rules.Ctx{P: p, Prop: prop, Tier: tier}
	def.Run(c)
	res.Obs, res.Floors, res.Exemptions, res.Info = c.Obs, c.Floors, c.Exemptions, c.Info
	return
}

type knownFinding struct {
	Status   string `json:"status"` // known | fixed
	Property string `json:"property"`
	Rule     string `json:"rule"`
	Key      string `json:"key"`
	Commit   string `json:"commit,omitempty"`
	What     string `json:"what"`
	Line     string `json:"line,omitempty"`
}

func loadKnown() []knownFinding {
	var f struct {
		Findings []knownFinding `json:"findings"`
	}
	b, err := os.ReadFile(filepath.Join(verifDir, "known_findings.json"))
	if err != nil {
		return nil
	}
	if err := json.Unmarshal(b, &f); err != nil {
		fmt.Fprintln(os.Stderr, "known_findings.json:", err)
		os.Exit(2)
	}
	return f.Findings
}

// child runs this binary for another configuration / tree and returns its Result.
func child(prop, repo, goos, goarch string, cha bool) *Result {
	tmp, err := os.CreateTemp("", "sscheck-*.json")
	if err != nil {
		return &Result{Property: prop, LoadError: err.Error()}
	}
	tmp.Close()
	defer os.Remove(tmp.Name())
	args := []string{"-property", prop, "-repo", repo, "-json-out", tmp.Name()}
	if goos != "" {
		args = append(args, "-goos", goos, "-goarch", goarch)
	}
	if cha {
		args = append(args, "-cha")
	}
	self, _ := os.Executable()
	cmd := exec.Command(self, args...)
	cmd.Env = os.Environ()
	out, _ := cmd.CombinedOutput()
	var r Result
	b, err := os.ReadFile(tmp.Name())
	if err != nil || json.Unmarshal(b, &r) != nil {
		return &Result{Property: prop, Repo: repo, LoadError: "child produced no result: " + string(out)}
	}
	return &r
}

type mutantSpec struct {
	Patch      string   `json:"patch"`
	Properties []string `json:"properties"`
	Rules      []string `json:"rules,omitempty"`
	What       string   `json:"what,omitempty"`
}

type mutantOutcome struct {
	Patch   string   `json:"patch"`
	Outcome string   `json:"outcome"` // killed | survived | skipped | broken
	Fired   []string `json:"fired,omitempty"`
	Note    string   `json:"note,omitempty"`
}

// mutantSelfTest applies every catalogued patch that targets prop to a scratch copy of the repo (outside
// /repo and /verif, removed right away) and checks that the property's rules fire there. Informational:
// it never changes the verdict for /repo.
func mutantSelfTest(prop, repo string) []mutantOutcome {
	var specs []mutantSpec
	b, err := os.ReadFile(filepath.Join(verifDir, "mutants", "index.json"))
	if err != nil {
		return nil
	}
	if json.Unmarshal(b, &specs) != nil {
		return nil
	}
	var mine []mutantSpec
	for _, s := range specs {
		for _, p := range s.Properties {
			if p == prop {
				mine = append(mine, s)
			}
		}
	}
	out := make([]mutantOutcome, len(mine))
	var wg sync.WaitGroup
	sem := make(chan struct{}, 6)
	for i, s := range mine {
		wg.Add(1)
		go func(i int, s mutantSpec) {
			defer wg.Done()
			sem <- struct{}{}
			defer func() { <-sem }()
			out[i] = runMutant(prop, repo, s)
		}(i, s)
	}
	wg.Wait()
	return out
}

// benignSelfTest: the converse self-test. Every catalogued behaviour-preserving variant (benign/*/patch.diff) is applied
// to a scratch copy and the property's rules are run on it; any obligation that is not discharged is a false alarm of
// the rules. Informational like the mutant self-test: it does not affect the verdict for /repo.
func benignSelfTest(prop, repo string) []mutantOutcome {
	paths, _ := filepath.Glob(filepath.Join(verifDir, "benign", "*", "patch.diff"))
	sort.Strings(paths)
	out := make([]mutantOutcome, len(paths))
	var wg sync.WaitGroup
	sem := make(chan struct{}, 8)
	for i, pth := range paths {
		wg.Add(1)
		go func(i int, pth string) {
			defer wg.Done()
			sem <- struct{}{}
			defer func() { <-sem }()
			rel, _ := filepath.Rel(verifDir, pth)
			mo := runMutant(prop, repo, mutantSpec{Patch: rel})
			switch mo.Outcome {
			case "killed":
				mo.Outcome = "alarm"
			case "survived":
				mo.Outcome = "silent"
			}
			out[i] = mo
		}(i, pth)
	}
	wg.Wait()
	return out
}

func runMutant(prop, repo string, s mutantSpec) mutantOutcome {
	mo := mutantOutcome{Patch: s.Patch}
	dir, err := os.MkdirTemp("", "sscheck-mutant-")
	if err != nil {
		mo.Outcome, mo.Note = "skipped", err.Error()
		return mo
	}
	defer os.RemoveAll(dir)
	cp := exec.Command("rsync", "-a", "--exclude", ".git", repo+"/", dir+"/")
	if o, err := cp.CombinedOutput(); err != nil {
		mo.Outcome, mo.Note = "skipped", "copy failed: "+string(o)
		return mo
	}
	patch := filepath.Join(verifDir, s.Patch)
	ap := exec.Command("patch", "-p1", "-s", "-f", "--no-backup-if-mismatch", "-i", patch)
	ap.Dir = dir
	if o, err := ap.CombinedOutput(); err != nil {
		mo.Outcome, mo.Note = "skipped", "patch no longer applies to this tree: "+strings.TrimSpace(string(o))
		return mo
	}
	r := child(prop, dir, "", "", false)
	if r.LoadError != "" || r.Panic != "" {
		mo.Outcome, mo.Note = "broken", r.LoadError+r.Panic
		return mo
	}
	for _, o := range r.Obs {
		if o.Verdict != rules.Discharged {
			mo.Fired = append(mo.Fired, o.Rule+"["+o.Key+"]")
		}
	}
	if len(mo.Fired) > 0 {
		mo.Outcome = "killed"
	} else {
		mo.Outcome = "survived"
	}
	return mo
}

func main() {
	prop := flag.String("property", "", "property id (C01..C20)")
	tier := flag.String("tier", "quick", "quick | thorough")
	repo := flag.String("repo", "/repo", "tree to analyse")
	goos := flag.String("goos", "", "GOOS (child mode)")
	goarch := flag.String("goarch", "", "GOARCH (child mode)")
	cha := flag.Bool("cha", false, "use CHA call graph (child mode)")
	jsonOut := flag.String("json-out", "", "child mode: write the raw Result here and exit 0")
	explain := flag.String("explain", "", "print a violation witness file in readable form")
	list := flag.Bool("list", false, "list properties")
	verbose := flag.Bool("v", false, "print every obligation")
	flag.StringVar(&verifDir, "verif", "/verif", "verification directory")
	flag.Parse()

	if *explain != "" {
		b, err := os.ReadFile(*explain)
		if err != nil {
			fmt.Fprintln(os.Stderr, err)
			os.Exit(2)
		}
		var w map[string]any
		json.Unmarshal(b, &w)
		out, _ := json.MarshalIndent(w, "", "  ")
		fmt.Println(string(out))
		fmt.Println("Re-derive on the current tree with: ./check", w["property"], "quick")
		return
	}
	if *list {
		var ids []string
		for id := range rules.Registry {
			ids = append(ids, id)
		}
		sort.Strings(ids)
		for _, id := range ids {
			fmt.Println(id, rules.Registry[id].Level)
		}
		return
	}
	def := rules.Registry[*prop]
	if def == nil {
		fmt.Fprintln(os.Stderr, "unknown property", *prop)
		os.Exit(2)
	}
	if *jsonOut != "" {
		r := analyse(*prop, *repo, *goos, *goarch, *cha, "quick")
		b, _ := json.Marshal(r)
		os.WriteFile(*jsonOut, b, 0o644)
		return
	}

	t0 := time.Now()
	seed, _ := strconv.Atoi(os.Getenv("VERIF_SEED"))
	if t := os.Getenv("VERIF_TIER"); t != "" && *tier == "" {
		*tier = t
	}
	results := []*Result{analyse(*prop, *repo, "", "", false, *tier)}
	var mutants, benign []mutantOutcome
	if *tier == "thorough" {
		type job struct {
			goos, goarch string
			cha          bool
		}
		jobs := []job{{"linux", "386", false}, {"darwin", "arm64", false}, {"windows", "amd64", false}, {"", "", true}}
		rs := make([]*Result, len(jobs))
		var wg sync.WaitGroup
		for i, j := range jobs {
			wg.Add(1)
			go func(i int, j job) {
				defer wg.Done()
				rs[i] = child(*prop, *repo, j.goos, j.goarch, j.cha)
			}(i, j)
		}
		wg.Wait()
		results = append(results, rs...)
		mutants = mutantSelfTest(*prop, *repo)
		benign = benignSelfTest(*prop, *repo)
	}

	// broken input: no verdict
	for _, r := range results {
		if r.LoadError != "" && r.Config == "default" && r.Graph == "vta" {
			fmt.Fprintf(os.Stderr, "sscheck: %s does not load (%s): %s\n", *repo, r.Config, r.LoadError)
			os.Exit(2)
		}
	}

	known := loadKnown()
	type viol struct {
		Ob     rules.Ob
		Config string
	}
	var viols []viol
	var knownLines []string
	seenKnown := map[string]bool{}
	total, discharged, undecided, violated := 0, 0, 0, 0
	distinct := map[string]bool{}
	ruleCounts := map[string]map[string]int{}
	seenViol := map[string]bool{}
	var configs []map[string]any
	for _, r := range results {
		cfg := map[string]any{"config": r.Config, "graph": r.Graph, "wall_s": r.WallS, "stats": r.Stats, "obligations": len(r.Obs)}
		if r.LoadError != "" {
			cfg["load_error"] = r.LoadError
		}
		if r.Panic != "" {
			cfg["panic"] = r.Panic
			r.Obs = append(r.Obs, rules.Ob{Rule: *prop + ".ENGINE", Key: "panic:" + r.Config + "/" + r.Graph, Pos: "-", Verdict: rules.Undecided, Detail: r.Panic})
		}
		configs = append(configs, cfg)
		informational := r.Graph == "cha" // CHA-only findings are information (over-approximate graph), see DESIGN §6
		for i := range r.Obs {
			o := &r.Obs[i]
			total++
			if o.Pos != "-" && o.Pos != "" {
				distinct[o.Rule+"|"+o.Key] = true
			}
			if ruleCounts[o.Rule] == nil {
				ruleCounts[o.Rule] = map[string]int{}
			}
			ruleCounts[o.Rule][o.Verdict]++
			switch o.Verdict {
			case rules.Discharged:
				discharged++
			default:
				if informational {
					cfg["cha_only_findings"] = fmt.Sprint(cfg["cha_only_findings"], " ", o.Rule, "[", o.Key, "]")
					discharged++
					continue
				}
				isKnown := false
				for _, k := range known {
					if k.Status == "known" && k.Property == *prop && k.Rule == o.Rule && k.Key == o.Key {
						isKnown = true
						o.Known = k.What
						if !seenKnown[k.Rule+k.Key] {
							seenKnown[k.Rule+k.Key] = true
							knownLines = append(knownLines, fmt.Sprintf("KNOWN-FINDING: property=%s %s [%s] %s", *prop, k.Rule, k.Key, k.What))
						}
					}
				}
				if isKnown {
					continue
				}
				if o.Verdict == rules.Undecided {
					undecided++
				} else {
					violated++
				}
				if !seenViol[o.Rule+"|"+o.Key] {
					seenViol[o.Rule+"|"+o.Key] = true
					viols = append(viols, viol{*o, r.Config + "/" + r.Graph})
				}
			}
		}
	}

	// evidence
	main0 := results[0]
	var samples []any
	for i, o := range main0.Obs {
		if i%maxInt(1, len(main0.Obs)/12) == 0 && len(samples) < 14 {
			samples = append(samples, o)
		}
	}
	for _, v := range viols {
		samples = append(samples, v.Ob)
	}
	if len(samples) == 0 {
		samples = append(samples, map[string]string{"note": "no obligations were generated"})
	}
	var allObs []rules.Ob
	allObs = append(allObs, main0.Obs...)
	mk, ms, mt := 0, 0, 0
	for _, m := range mutants {
		mt++
		switch m.Outcome {
		case "killed":
			mk++
		case "skipped", "broken":
			ms++
		}
	}
	cov := map[string]any{
		"explanation": def.Explanation,
		"not_decided": def.NotDecided,
		"rule": "static rules over the type-checked SSA program of /repo's working tree; one obligation = one rule applied to one construct (function, call site, field, lock class); " +
			"non-trivial/distinct = obligations bound to a concrete source position, counted by distinct rule+construct key",
		"evaluations":         total,
		"distinct_nontrivial": len(distinct),
		"obligations":         total,
		"discharged":          discharged,
		"undecided":           undecided,
		"violated":            violated,
		"checker_cmd":         "/verif/check " + *prop + " " + *tier,
		"trusted_base": append([]string{"go/types, go/ssa and callgraph/vta of golang.org/x/tools v0.29.0", "Go memory model and documented standard-library semantics",
			"Outline SDK shadowsocks/transport packages and go-shadowsocks2/socks as found in the module cache (read, not re-verified)"}, def.Trusted...),
		"samples":                samples,
		"rules":                  ruleCounts,
		"floors":                 main0.Floors,
		"exemptions":             main0.Exemptions,
		"configurations":         configs,
		"all_obligations":        allObs,
		"known_findings_matched": knownLines,
		"info":                   main0.Info,
		"exhaustive":             true,
	}
	if *tier == "thorough" {
		cov["mutants"] = map[string]any{"total": mt, "killed": mk, "skipped_or_broken": ms, "outcomes": mutants,
			"note": "self-test of the rules on catalogued property-breaking patches applied to scratch copies; informational, does not affect the verdict for /repo"}
		bs, ba, bo := 0, 0, 0
		var alarms []mutantOutcome
		for _, b := range benign {
			switch b.Outcome {
			case "silent":
				bs++
			case "alarm":
				ba++
				alarms = append(alarms, b)
			default:
				bo++
			}
		}
		cov["benign_variants"] = map[string]any{"total": len(benign), "silent": bs, "alarms": ba, "skipped_or_broken": bo, "alarm_outcomes": alarms,
			"note": "converse self-test: the rules of this property on catalogued behaviour-preserving variants of the code (refactorings written by independent sub-agents); an alarm here is a false alarm of the rules; informational, does not affect the verdict for /repo"}
	}
	ev := map[string]any{
		"property_id": *prop,
		"tier":        *tier,
		"seed":        seed,
		"level":       def.Level,
		"coverage":    cov,
		"assumptions": append([]string{"the call graph is sound for this program (no reflection/unsafe on the analysed paths)",
			"rules decide the named structural clauses only; see coverage.not_decided"}, def.Trusted...),
		"wall_s":     time.Since(t0).Seconds(),
		"violations": len(viols),
	}
	os.MkdirAll(filepath.Join(verifDir, "evidence", "violations"), 0o755)
	// remove stale witnesses of this property
	old, _ := filepath.Glob(filepath.Join(verifDir, "evidence", "violations", *prop+"-*.json"))
	for _, f := range old {
		os.Remove(f)
	}
	eb, _ := json.MarshalIndent(ev, "", " ")
	if err := os.WriteFile(filepath.Join(verifDir, "evidence", *prop+".json"), eb, 0o644); err != nil {
		fmt.Fprintln(os.Stderr, "cannot write evidence:", err)
		os.Exit(2)
	}

	// report
	fmt.Printf("sscheck %s tier=%s tree=%s: %d obligations over %d configuration(s): %d discharged, %d violated, %d undecided; %d repo functions, %d call-graph edges; %.1fs\n",
		*prop, *tier, *repo, total, len(results), discharged, violated, undecided, main0.Stats["repo_functions"], main0.Stats["callgraph_edges"], time.Since(t0).Seconds())
	if *verbose {
		for _, o := range main0.Obs {
			fmt.Printf("  %-11s %-22s %-28s %s  %s\n", o.Verdict, o.Rule, o.Pos, o.Key, o.Detail)
		}
	}
	if *tier == "thorough" {
		fmt.Printf("  mutant self-test: %d/%d killed (%d skipped/broken)\n", mk, mt, ms)
		nb, na := 0, 0
		for _, b := range benign {
			nb++
			if b.Outcome == "alarm" {
				na++
				fmt.Printf("    false alarm on behaviour-preserving variant %s: %v\n", b.Patch, b.Fired)
			}
		}
		fmt.Printf("  behaviour-preserving variants: %d/%d silent\n", nb-na, nb)
		for _, m := range mutants {
			if m.Outcome != "killed" {
				fmt.Printf("    %s: %s %s\n", m.Outcome, m.Patch, m.Note)
			}
		}
	}
	for _, l := range knownLines {
		fmt.Println(l)
	}
	for i, v := range viols {
		w := map[string]any{"property": *prop, "rule": v.Ob.Rule, "construct": v.Ob.Key, "position": v.Ob.Pos, "verdict": v.Ob.Verdict,
			"detail": v.Ob.Detail, "configuration": v.Config, "tree": *repo}
		wb, _ := json.MarshalIndent(w, "", " ")
		path := filepath.Join(verifDir, "evidence", "violations", fmt.Sprintf("%s-%d.json", *prop, i+1))
		os.WriteFile(path, wb, 0o644)
		kind := "violated"
		if v.Ob.Verdict == rules.Undecided {
			kind = "UNDECIDED"
		}
		fmt.Printf("%s %s at %s [%s] (%s): %s\n", kind, v.Ob.Rule, v.Ob.Pos, v.Ob.Key, v.Config, v.Ob.Detail)
		fmt.Printf("VIOLATION property=%s replay=%s\n", *prop, path)
	}
	if len(viols) > 0 {
		os.Exit(1)
	}
}

func maxInt(a, b int) int {
	if a > b {
		return a
	}
	return b
}
